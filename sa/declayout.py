"""Reader-side wire-layout summary of decode(self, data).

A forward pass over the statements of decode() records which bytes of `data`
are read with which struct code at which (symbolic) offset and where the value
goes.  Offsets are polynomials over read ids (R0, R1, ...), loop variables and
len(data).  Nothing is executed.
"""
import ast
import struct

from .sym import Poly, NotInt
from .layout import fmt_items, fsize

U = ast.unparse


class Read:
    def __init__(self, rid, off, fmt, loop):
        self.rid, self.off, self.fmt, self.loop = rid, off, fmt, loop

    def __repr__(self):
        return '%s=%s@%s%s' % (self.rid, self.fmt, self.off, '' if self.loop is None else ' in L%d' % self.loop)


class Loop:
    def __init__(self, lid, kind):
        self.lid, self.kind = lid, kind
        self.var = None
        self.start = self.stop = None
        self.step = None            # int (range) or Poly advance (cursor)
        self.cond = None

    def __repr__(self):
        return 'L%d<%s %s: %s..%s step %s>' % (self.lid, self.kind, self.var, self.start, self.stop, self.step)


class DecSummary:
    def __init__(self):
        self.reads, self.raws, self.bits, self.loops = [], [], [], []
        self.assigns = {}      # attr -> list of (value, loop id)
        self.appends = []      # (attr, value, loop id, guard)
        self.opaque = []
        self.fresh = {}        # attr -> True if assigned a fresh empty container before any append

    def read(self, rid):
        for r in self.reads:
            if r.rid == rid:
                return r
        return None


class Reader:
    def __init__(self, cx, cls, fn):
        self.cx, self.cls, self.fn = cx, cls, fn
        self.param = fn.params[1] if len(fn.params) > 1 else 'data'
        self.nz = cx.nz(fn.mod, cls)
        self.s = DecSummary()
        self.n = 0

    # ------------------------------------------------------------ values
    def newread(self, off, fmt, loop):
        rid = 'R%d' % self.n
        self.n += 1
        self.s.reads.append(Read(rid, off, fmt, loop))
        return rid

    def _subst_reads(self, e, env):
        """X[k] where X is a tuple of reads -> the k-th read id"""
        if not any(isinstance(n, ast.Subscript) and isinstance(n.value, ast.Name) and isinstance(env.get(n.value.id), tuple)
                   and env[n.value.id][0] == 'reads' for n in ast.walk(e)):
            return e
        from .loader import clone
        rd = self

        class T(ast.NodeTransformer):
            def visit_Subscript(self, n):
                self.generic_visit(n)
                if isinstance(n.value, ast.Name) and isinstance(env.get(n.value.id), tuple) and env[n.value.id][0] == 'reads' \
                        and not isinstance(n.slice, ast.Slice):
                    k = rd.cx.ce.try_ev(n.slice, rd.fn.mod, rd.cls)
                    ids = env[n.value.id][1]
                    if isinstance(k, int) and -len(ids) <= k < len(ids):
                        return ast.Name(id=ids[k], ctx=ast.Load())
                return n
        return T().visit(clone(e))

    def poly(self, e, env):
        """integer expression -> Poly (locals substituted)"""
        if isinstance(e, ast.Name) and isinstance(env.get(e.id), Poly):
            return env[e.id]
        e = self._subst_reads(e, env)
        sub = {}
        for k, v in env.items():
            if isinstance(v, Poly):
                sub[k] = v
            elif isinstance(v, ast.AST):
                sub[k] = v
        if isinstance(e, ast.Call) and isinstance(e.func, ast.Name) and e.func.id[:1].isupper():
            self._slice_names(env, sub)         # arguments of a constructor call: slice locals shown as slices
        if isinstance(e, ast.Call) and isinstance(e.func, ast.Name) and e.func.id == 'len' and len(e.args) == 1 \
                and isinstance(e.args[0], ast.Name) and e.args[0].id == self.param:
            return Poly.atom('len(data)')
        return self.nz.norm(e, sub)

    def is_data(self, e, env):
        if isinstance(e, ast.Name) and isinstance(env.get(e.id), tuple):
            return False
        return isinstance(e, ast.Name) and (e.id == self.param or env.get(e.id) == 'DATA')

    def slice_of_data(self, e, env):
        """data / data[a:b] -> (lo Poly, hi Poly|None) relative to the PDU data; else None"""
        if self.is_data(e, env):
            return Poly.const(0), None
        if isinstance(e, ast.Name) and isinstance(env.get(e.id), tuple) and env[e.id][0] == 'SLICE':
            return env[e.id][1], env[e.id][2]
        if isinstance(e, ast.Subscript) and isinstance(e.slice, ast.Slice) and e.slice.step is None:
            base = self.slice_of_data(e.value, env)
            if base is None:
                return None
            try:
                lo = self.poly(e.slice.lower, env) if e.slice.lower is not None else Poly.const(0)
                hi = self.poly(e.slice.upper, env) if e.slice.upper is not None else None
            except NotInt:
                return None
            if lo.is_const() and lo.const_value() < 0 or (hi is not None and hi.is_const() and hi.const_value() < 0):
                return ('NEG', lo, hi)
            return base[0] + lo, (base[0] + hi) if hi is not None else base[1]
        return None

    def value(self, e, env, loop):
        """evaluate an rhs; returns one of:
        ('reads', [rid,...]) | ('int', Poly) | ('raw', lo, hi) | ('bits', lo, hi) | ('expr', canon) """
        if isinstance(e, ast.Call):
            fn = U(e.func)
            name = fn.split('.')[-1]
            if fn in ('struct.unpack', 'unpack') and len(e.args) == 2:
                f = self.cx.ce.try_ev(e.args[0], self.fn.mod, self.cls)
                sl = self.slice_of_data(e.args[1], env)
                if not isinstance(f, str):
                    dyn = self._dynamic_format(e.args[0], env)
                    if dyn is not None and sl is not None and sl[0] != 'NEG':
                        return ('dynreads', dyn, sl[0])
                    self.s.opaque.append('dynamic unpack format %s' % U(e.args[0]))
                    return ('expr', U(e))
                if sl is None or sl[0] == 'NEG':
                    self.s.opaque.append('unpack of non-data %s' % U(e.args[1]))
                    return ('expr', U(e))
                out, off = [], sl[0]
                for it in fmt_items(f, []):
                    if it[0] == 'C':
                        off = off + Poly.const(len(it[1]))
                        continue
                    out.append(self.newread(off, it[1], loop))
                    off = off + Poly.const(fsize(it[1]) if not it[1].endswith('s') else int(it[1][:-1] or 1))
                # the slice handed to unpack must be exactly as long as the format
                if sl[1] is not None:
                    want = Poly.const(struct.calcsize(f))
                    if (sl[1] - sl[0]) != want:
                        self.s.opaque.append('unpack slice length %s != calcsize(%s)' % (sl[1] - sl[0], f))
                return ('reads', out)
            if name == 'byte2int' and len(e.args) == 1:
                a = e.args[0]
                if isinstance(a, ast.Subscript) and not isinstance(a.slice, ast.Slice):
                    base = self.slice_of_data(a.value, env)
                    if base is not None and base[0] != 'NEG':
                        try:
                            i = self.poly(a.slice, env)
                        except NotInt:
                            i = None
                        if i is not None and i.is_const() and i.const_value() < 0:
                            return ('reads', [self.newread(Poly.atom('len(data)') + i, 'B', loop)])
                        if i is not None:
                            return ('reads', [self.newread(base[0] + i, 'B', loop)])
                if isinstance(a, ast.Call):
                    return self.value(a, env, loop)
            if name == 'int' and len(e.args) == 1:
                return self.value(e.args[0], env, loop)
            if name == 'unpack_bitstring' and len(e.args) == 1:
                sl = self.slice_of_data(e.args[0], env)
                if sl is not None and sl[0] != 'NEG':
                    return ('bits', sl[0], sl[1])
            if name == 'len' and len(e.args) == 1 and self.is_data(e.args[0], env):
                return ('int', Poly.atom('len(data)'))
        if isinstance(e, ast.Subscript):
            if isinstance(e.slice, ast.Slice):
                sl = self.slice_of_data(e, env)
                if sl is not None and sl[0] != 'NEG':
                    return ('raw', sl[0], sl[1])
                # slicing a tuple of reads / a bits list
                base = self.value(e.value, env, loop) if not isinstance(e.value, ast.Name) else env.get(e.value.id)
                if isinstance(base, tuple) and base[0] == 'reads':
                    lo = self.cx.ce.try_ev(e.slice.lower, self.fn.mod, self.cls, default=0) if e.slice.lower is not None else 0
                    hi = self.cx.ce.try_ev(e.slice.upper, self.fn.mod, self.cls) if e.slice.upper is not None else None
                    return ('reads', base[1][lo:hi])
                if isinstance(base, tuple) and base[0] == 'dynreads' and e.slice.upper is None:
                    k = self.cx.ce.try_ev(e.slice.lower, self.fn.mod, self.cls) if e.slice.lower is not None else 0
                    if isinstance(k, int) and k >= 0:
                        (f, cnt), off = base[1], base[2]
                        return ('dynreads', (f, cnt - Poly.const(k)), off + Poly.const(k * fsize(f)))
                if isinstance(base, tuple) and base[0] == 'bits':
                    try:
                        n = self.poly(e.slice.upper, env) if e.slice.upper is not None else None
                    except NotInt:
                        n = None
                    return ('bits', base[1], base[2], n)
            else:
                base = env.get(e.value.id) if isinstance(e.value, ast.Name) else None
                if isinstance(base, tuple) and base[0] == 'dynreads':
                    k = self.cx.ce.try_ev(e.slice, self.fn.mod, self.cls)
                    if isinstance(k, int) and k >= 0:
                        (f, cnt), off = base[1], base[2]
                        return ('reads', [self.newread(off + Poly.const(k * fsize(f)), f, loop)])
                if base is None and isinstance(e.value, ast.Call):
                    base = self.value(e.value, env, loop)
                k = self.cx.ce.try_ev(e.slice, self.fn.mod, self.cls)
                if isinstance(base, tuple) and base[0] == 'reads' and isinstance(k, int) and -len(base[1]) <= k < len(base[1]):
                    return ('int', Poly.atom(base[1][k]))
                if self.is_data(e.value, env) or (isinstance(e.value, ast.Subscript) and self.slice_of_data(e.value, env)):
                    basesl = self.slice_of_data(e.value, env)
                    try:
                        i = self.poly(e.slice, env)
                        return ('reads', [self.newread(basesl[0] + i, 'B', loop)])
                    except (NotInt, TypeError):
                        pass
        if isinstance(e, ast.Name):
            v = env.get(e.id)
            if isinstance(v, Poly):
                return ('int', v)
            if isinstance(v, tuple) and v[0] == 'SLICE':
                return ('raw', v[1], v[2])
            if isinstance(v, tuple):
                return v
        try:
            return ('int', self.poly(e, env))
        except NotInt:
            pass
        return ('expr', self.canon(e, env))

    def _dynamic_format(self, e, env):
        """'>' + 'H' * n  or  '>%dH' % n  -> ('>H', n Poly)"""
        if isinstance(e, ast.BinOp) and isinstance(e.op, ast.Mod) and isinstance(e.left, ast.Constant) and isinstance(e.left.value, str):
            import re
            m = re.match(r'^([<>!]?)%d([A-Za-z])$', e.left.value)
            if m and not isinstance(e.right, ast.Tuple):
                try:
                    return (('>' if m.group(1) in ('>', '!', '') else m.group(1)) + m.group(2), self.poly(e.right, env))
                except NotInt:
                    return None
        if isinstance(e, ast.Call) and isinstance(e.func, ast.Attribute) and e.func.attr == 'format' and isinstance(e.func.value, ast.Constant) \
                and isinstance(e.func.value.value, str) and len(e.args) == 1:
            import re
            m = re.match(r'^([<>!]?)\{\}([A-Za-z])$', e.func.value.value)
            if m:
                try:
                    return (('>' if m.group(1) in ('>', '!', '') else m.group(1)) + m.group(2), self.poly(e.args[0], env))
                except NotInt:
                    return None
        if isinstance(e, ast.BinOp) and isinstance(e.op, ast.Add):
            pre = self.cx.ce.try_ev(e.left, self.fn.mod, self.cls)
            r = e.right
            if isinstance(pre, str) and pre in ('>', '!', '<') and isinstance(r, ast.BinOp) and isinstance(r.op, ast.Mult):
                ch = self.cx.ce.try_ev(r.left, self.fn.mod, self.cls)
                if isinstance(ch, str) and len(ch) == 1:
                    try:
                        return (('>' if pre in '>!' else pre) + ch, self.poly(r.right, env))
                    except NotInt:
                        return None
        return None

    def canon(self, e, env):
        e = self._subst_reads(e, env)
        sub = {}
        for k, v in env.items():
            if isinstance(v, Poly):
                sub[k] = v
            elif isinstance(v, ast.AST):
                sub[k] = v
            elif isinstance(v, tuple) and v[0] == 'reads' and len(v[1]) == 1:
                sub[k] = Poly.atom(v[1][0])
        self._slice_names(env, sub)
        return self.nz.canon(e, sub)

    def _slice_names(self, env, sub):
        """a local that names a slice of the PDU data is shown as that slice (bounds as they were when it was taken): the
        substitute is a Name whose id is the slice text (ast.unparse prints ids verbatim)"""
        for k_, v_ in env.items():
            if isinstance(v_, tuple) and v_[0] == 'SLICE' and '.' not in k_ and k_ not in sub:
                sub[k_] = ast.Name(id='data[%s:%s]' % (v_[1], v_[2] if v_[2] is not None else ''), ctx=ast.Load())

    # -------------------------------------------------------- statements
    def bind(self, t, val, env, loop, valnode=None):
        if isinstance(t, ast.Name):
            if val[0] == 'int':
                env[t.id] = val[1]
            elif val[0] == 'reads' and len(val[1]) == 1:
                env[t.id] = Poly.atom(val[1][0])
            elif val[0] == 'raw':
                env[t.id] = ('SLICE', val[1], val[2])
            elif val[0] in ('reads', 'bits', 'dynreads'):
                env[t.id] = val
            elif valnode is not None:
                env[t.id] = ast.parse(self.canon(valnode, env), mode='eval').body if self._parsable(self.canon(valnode, env)) else valnode
            if isinstance(t, ast.Name) and t.id == self.param and val[0] not in ('raw', 'dynreads', 'reads'):
                # data rebound (e.g. padded): keep treating it as the PDU data
                env[t.id] = 'DATA'
        elif isinstance(t, ast.Attribute) and U(t.value) == 'self':
            self.s.assigns.setdefault(t.attr, []).append((self.show(val), loop))
            if val[0] == 'int':
                env['self.' + t.attr] = val[1]
            elif val[0] == 'reads' and len(val[1]) == 1:
                env['self.' + t.attr] = Poly.atom(val[1][0])
            else:
                env.pop('self.' + t.attr, None)
            if val[0] == 'expr' and val[1] in ('[]', '{}', 'dict()', 'list()'):
                self.s.fresh[t.attr] = True
        elif isinstance(t, (ast.Tuple, ast.List)):
            if val[0] == 'reads' and len(val[1]) == len(t.elts):
                for el, r in zip(t.elts, val[1]):
                    self.bind(el, ('reads', [r]), env, loop)
            elif isinstance(valnode, (ast.Tuple, ast.List)) and len(valnode.elts) == len(t.elts):
                for el, vn in zip(t.elts, valnode.elts):
                    self.bind(el, self.value(vn, env, loop), env, loop, vn)
            elif isinstance(valnode, ast.Call) and U(valnode.func) == 'divmod' and len(valnode.args) == 2 and len(t.elts) == 2:
                x, c = valnode.args
                for el, op in zip(t.elts, (ast.FloorDiv(), ast.Mod())):
                    vn = ast.BinOp(left=x, op=op, right=c)
                    self.bind(el, self.value(vn, env, loop), env, loop, vn)
            elif val[0] == 'dynreads' and len(t.elts) == 2:
                # sub, rest = data[0], data[1:]
                pass
            else:
                self.s.opaque.append('tuple assignment %s' % U(t))
        elif isinstance(t, ast.Subscript):
            base = t.value
            if isinstance(base, ast.Attribute) and U(base.value) == 'self':
                self.s.appends.append((base.attr, self.show(val), loop, 'item[%s]' % self.canon(t.slice, env)))
            elif isinstance(base, ast.Name) and isinstance(env.get(base.id), tuple) and env[base.id][0] == 'ALIAS':
                # a local that names the same container as self.X
                self.s.appends.append((env[base.id][1], self.show(val), loop, 'item[%s]' % self.canon(t.slice, env)))

    def _parsable(self, s):
        try:
            ast.parse(s, mode='eval')
            return True
        except SyntaxError:
            return False

    def show(self, val):
        if val[0] == 'int':
            return str(val[1])
        if val[0] == 'reads':
            return val[1][0] if len(val[1]) == 1 else '(%s)' % ','.join(val[1])
        if val[0] == 'raw':
            return 'data[%s:%s]' % (val[1], val[2] if val[2] is not None else '')
        if val[0] == 'bits':
            extra = '[:%s]' % val[3] if len(val) > 3 and val[3] is not None else ''
            return 'bits(data[%s:%s])%s' % (val[1], val[2] if val[2] is not None else '', extra)
        if val[0] == 'dynreads':
            return 'words(%s x %s @%s)' % (val[1][0], val[1][1], val[2])
        return val[1]

    def _neg_guard(self, test, env):
        inv = {ast.Eq: ast.NotEq, ast.NotEq: ast.Eq, ast.Lt: ast.GtE, ast.GtE: ast.Lt, ast.Gt: ast.LtE, ast.LtE: ast.Gt}
        if isinstance(test, ast.Compare) and len(test.ops) == 1 and type(test.ops[0]) in inv:
            return ' if ' + self.canon(ast.Compare(left=test.left, ops=[inv[type(test.ops[0])]()], comparators=test.comparators), env)
        if isinstance(test, ast.UnaryOp) and isinstance(test.op, ast.Not):
            return ' if ' + self.canon(test.operand, env)
        return ' ifnot ' + self.canon(test, env)

    def block(self, stmts, env, loop, guard=''):
        for si, s in enumerate(stmts):
            if isinstance(s, ast.If) and not s.orelse and s.body and isinstance(s.body[-1], ast.Continue) and loop is not None:
                # guard clause inside a loop: the rest of the iteration runs under the negated test
                self.block(s.body[:-1], dict(env), loop, (guard + ' if ' + self.canon(s.test, env)).strip())
                self.block(stmts[si + 1:], env, loop, (guard + self._neg_guard(s.test, env)).strip())
                return
            if isinstance(s, ast.Expr):
                c = s.value
                if isinstance(c, ast.Call) and isinstance(c.func, ast.Attribute) and c.func.attr in ('append', 'extend') and c.args:
                    tgt = c.func.value
                    v = self.value(c.args[0], env, loop)
                    if isinstance(tgt, ast.Name) and isinstance(env.get(tgt.id), tuple) and env[tgt.id][0] == 'ALIAS':
                        self.s.appends.append((env[tgt.id][1], self.show(v), loop, guard))
                    if isinstance(tgt, ast.Attribute) and U(tgt.value) == 'self':
                        self.s.appends.append((tgt.attr, self.show(v), loop, guard))
                    elif isinstance(tgt, ast.Subscript) and isinstance(tgt.value, ast.Attribute) and U(tgt.value.value) == 'self':
                        self.s.appends.append((tgt.value.attr, self.show(v), loop, guard + ' item[%s]' % self.canon(tgt.slice, env)))
                continue
            if isinstance(s, ast.Pass):
                continue
            if isinstance(s, ast.Assign) and isinstance(s.value, ast.Call) and U(s.value.func) == 'range' and 1 <= len(s.value.args) <= 3 \
                    and all(isinstance(t, ast.Name) for t in s.targets):
                # offsets = range(a, b, c): the bounds are evaluated here (their reads happen here), the loop comes later
                try:
                    ps = []
                    for a in s.value.args:
                        v_ = self.value(a, env, loop)
                        if v_[0] == 'int':
                            ps.append(v_[1])
                        elif v_[0] == 'reads' and len(v_[1]) == 1:
                            ps.append(Poly.atom(v_[1][0]))
                        else:
                            ps.append(self.poly(a, env))
                    for t in s.targets:
                        env[t.id] = ('RANGE', ps)
                except NotInt:
                    self.s.opaque.append('range bounds %s' % U(s.value))
                continue
            if isinstance(s, ast.Assign):
                v = self.value(s.value, env, loop)
                for t in s.targets:
                    self.bind(t, v, env, loop, s.value)
                # a local that names the same list as self.X:  xs = self.X = []   /   xs = self.X
                attrs = [t.attr for t in s.targets if isinstance(t, ast.Attribute) and U(t.value) == 'self']
                if isinstance(s.value, ast.Attribute) and U(s.value.value) == 'self':
                    attrs.append(s.value.attr)
                if attrs and (isinstance(s.value, (ast.List, ast.Dict, ast.Attribute)) or (isinstance(s.value, ast.Call) and U(s.value.func) in ('list', 'dict') and not s.value.args)):
                    for t in s.targets:
                        if isinstance(t, ast.Name):
                            env[t.id] = ('ALIAS', attrs[0])
                continue
            if isinstance(s, ast.AugAssign) and isinstance(s.target, ast.Name):
                cur = env.get(s.target.id)
                try:
                    rhs = self.poly(s.value, env)
                    if isinstance(cur, Poly) and isinstance(s.op, ast.Add):
                        env[s.target.id] = cur + rhs
                    elif isinstance(cur, Poly) and isinstance(s.op, ast.Sub):
                        env[s.target.id] = cur - rhs
                    else:
                        env.pop(s.target.id, None)
                except NotInt:
                    if isinstance(cur, str) and cur == 'DATA' or s.target.id == self.param:
                        env[s.target.id] = 'DATA'
                    else:
                        env.pop(s.target.id, None)
                continue
            if isinstance(s, ast.For):
                lp = Loop(len(self.s.loops), 'range')
                self.s.loops.append(lp)
                e2 = dict(env)
                it_ = s.iter
                pre = None
                if isinstance(it_, ast.Name) and isinstance(env.get(it_.id), tuple) and env[it_.id][0] == 'RANGE':
                    pre = env[it_.id][1]        # offsets = range(...); for start in offsets:
                if pre is not None and isinstance(s.target, ast.Name):
                    if len(pre) == 1:
                        lp.start, lp.stop, lp.step = Poly.const(0), pre[0], 1
                    elif len(pre) == 2:
                        lp.start, lp.stop, lp.step = pre[0], pre[1], 1
                    else:
                        lp.start, lp.stop, lp.step = pre[0], pre[1], pre[2].const_value()
                    lp.var = s.target.id
                    e2[s.target.id] = Poly.atom('$' + s.target.id)
                elif isinstance(it_, ast.Call) and U(it_.func) == 'range' and isinstance(s.target, ast.Name):
                    a = it_.args
                    try:
                        if len(a) == 1:
                            lp.start, lp.stop, lp.step = Poly.const(0), self.poly(a[0], env), 1
                        elif len(a) == 2:
                            lp.start, lp.stop, lp.step = self.poly(a[0], env), self.poly(a[1], env), 1
                        else:
                            lp.start, lp.stop = self.poly(a[0], env), self.poly(a[1], env)
                            lp.step = self.poly(a[2], env).const_value()
                    except NotInt:
                        self.s.opaque.append('range bounds %s' % U(it_))
                    lp.var = s.target.id
                    e2[s.target.id] = Poly.atom('$' + s.target.id)
                else:
                    lp.kind = 'iter'
                    lp.cond = U(s.iter)
                self.block(s.body, e2, lp.lid, guard)
                continue
            if isinstance(s, ast.While):
                lp = Loop(len(self.s.loops), 'cursor')
                self.s.loops.append(lp)
                lp.cond = self.canon(s.test, env)
                t = s.test
                e2 = dict(env)
                # cursor = the name compared in the loop test that is augmented in the body
                augs = [n.target.id for n in ast.walk(s) if isinstance(n, ast.AugAssign) and isinstance(n.target, ast.Name)]
                augs += [t.id for n in ast.walk(s) if isinstance(n, ast.Assign) for t in n.targets if isinstance(t, ast.Name)]
                names = [n.id for n in ast.walk(t) if isinstance(n, ast.Name) and n.id in augs]
                if names and isinstance(env.get(names[0]), Poly):
                    lp.var = names[0]
                    lp.start = env[names[0]]
                    e2[names[0]] = Poly.atom('$' + names[0])
                    if isinstance(t, ast.Compare) and len(t.ops) == 1 and isinstance(t.ops[0], (ast.Lt, ast.LtE)) and isinstance(t.left, ast.Name) \
                            and t.left.id == names[0]:
                        try:
                            lp.stop = self.poly(t.comparators[0], env) + (Poly.const(1) if isinstance(t.ops[0], ast.LtE) else Poly.const(0))
                        except NotInt:
                            pass
                    elif isinstance(t, ast.Compare) and len(t.ops) == 1 and isinstance(t.ops[0], ast.Gt) and isinstance(t.left, ast.Name):
                        lp.kind = 'countdown'
                else:
                    self.s.opaque.append('while loop without cursor: %s' % U(t))
                self.block(s.body, e2, lp.lid, guard)
                if lp.var and isinstance(e2.get(lp.var), Poly):
                    lp.step = e2[lp.var] - Poly.atom('$' + lp.var)
                    if lp.kind == 'cursor' and lp.stop is not None and lp.step.is_const() and lp.step.const_value() > 0:
                        # a cursor advanced by a constant is a range loop:  while i < n: ...; i += k   ==   for i in range(start, n, k)
                        lp.kind, lp.step = 'range', lp.step.const_value()
                continue
            if isinstance(s, ast.If):
                g = self.canon(s.test, env)
                e1, e2 = dict(env), dict(env)
                self.block(s.body, e1, loop, (guard + ' if ' + g).strip())
                self.block(s.orelse, e2, loop, (guard + ' ifnot ' + g).strip())
                for k in set(e1) | set(e2):
                    a, b = e1.get(k), e2.get(k)
                    same = (a == b) if not (isinstance(a, ast.AST) or isinstance(b, ast.AST)) else (
                        isinstance(a, ast.AST) and isinstance(b, ast.AST) and ast.dump(a) == ast.dump(b))
                    if same:
                        env[k] = a
                    elif isinstance(a, Poly) and isinstance(b, Poly):
                        c = None
                        try:
                            tp = self.poly(s.test, env)
                        except Exception:
                            tp = None
                        import re as _re
                        if tp is not None and len(tp.t) == 1 and list(tp.t.values()) == [1] and len(list(tp.t)[0]) == 1 and (a - b) == Poly.const(1):
                            mm = _re.match(r'^mod\((.*), (\d+)\)$', list(tp.t)[0][0])
                            if mm:
                                env[k] = b + Poly.atom('nzmod%s(%s)' % (mm.group(2), mm.group(1)))
                                continue
                        try:
                            sub = {kk: vv for kk, vv in env.items() if isinstance(vv, (Poly, ast.AST))}
                            t = s.test
                            if isinstance(t, ast.BinOp) and isinstance(t.op, ast.Mod) and isinstance(t.left, ast.Call) and U(t.left.func) == 'len' \
                                    and self.is_data(t.left.args[0], env):
                                x = Poly.atom('len(data)')
                                cc = self.nz.norm(t.right, sub).const_value()
                                if cc and (a - b) == Poly.const(1) and b == self.nz._floordiv(x, cc):
                                    c = Poly.atom('ceil%d(%s)' % (cc, x))
                            else:
                                c = self.nz._ceil_ite(t, a, b, sub)
                        except Exception:
                            c = None
                        env[k] = c if c is not None else Poly.atom('ite(%s, %s, %s)' % (g, a, b))
                    elif a == 'DATA' or b == 'DATA':
                        env[k] = 'DATA'
                    else:
                        env.pop(k, None)
                continue
            if isinstance(s, ast.Delete) and len(s.targets) == 1 and isinstance(s.targets[0], ast.Subscript) and isinstance(s.targets[0].value, ast.Name) \
                    and isinstance(s.targets[0].slice, ast.Slice) and s.targets[0].slice.upper is None and s.targets[0].slice.step is None \
                    and s.targets[0].slice.lower is not None:
                # del xs[n:]  keeps the first n elements:  xs = xs[:n]
                nm = s.targets[0].value
                eq = ast.Assign(targets=[ast.Name(id=nm.id, ctx=ast.Store())],
                                value=ast.Subscript(value=ast.Name(id=nm.id, ctx=ast.Load()), slice=ast.Slice(lower=None, upper=s.targets[0].slice.lower, step=None), ctx=ast.Load()))
                ast.copy_location(eq, s)
                ast.fix_missing_locations(eq)
                self.block([eq], env, loop, guard)
                continue
            self.s.opaque.append('statement %s' % type(s).__name__)

    def run(self):
        self.block(self.fn.node.body, {}, None)
        return self.s


def summarise_decode(cx, cls):
    fn = cx.idx.find_method(cls, 'decode')
    if fn is None:
        return None, None
    return fn, Reader(cx, cls, fn).run()
