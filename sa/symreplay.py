"""Per-path expression environment (forward value propagation along one
enumerated path).  Locals are replaced by their defining expressions, instance
attributes assigned earlier on the path by the assigned expression.  The
result is a *syntactic* normal form used for comparisons (same address in
validate and setValues, slice bounds, …) — no values are computed.
"""
import ast
from .loader import clone

from .paths import Ev, _LambdaFrame, _UNKNOWN

U = ast.unparse

# optional hook set by common.Ctx: (call node, frame) -> expression of a side-effect-free getter's result, or None
PURE_INLINER = None


class State:
    def __init__(self):
        self.loc = {}      # (fid, name) -> ast expr (already substituted)
        self.heap = {}     # canonical access path 'self.x' / 'self.framer._buffer' -> ast expr
        self.selfmap = {}  # fid -> ast expr for that frame's `self` (in root terms) or None
        self.tainted = set()   # heap keys mutated in place (append/extend/...) after assignment
        self.versioned = {}    # heap key -> version counter: the cell is kept opaque, each write bumps the version
        self.alias = {}        # (fid, local name) -> attribute path AST the local was bound to (x = self._header): item reads and
                               # writes through the local go to the cells of that attribute

    def lookup_local(self, fr, name):
        f = fr
        while True:
            if (f.fid, name) in self.loc:
                return self.loc[(f.fid, name)]
            if isinstance(f, _LambdaFrame):
                f = f.defining
            else:
                return None

    def expr(self, node, fr, heap=True, raw=False, inline=False):
        heap = heap and getattr(self, 'heap_subst', True)
        """substitute locals (and heap cells) into node; returns a new AST"""
        st = self

        class T(ast.NodeTransformer):
            def visit_Name(self, n):
                if n.id == 'self':
                    sm = st.selfmap.get(_root(fr).fid)
                    if sm is not None:
                        return clone(sm)
                    return n
                v = st.lookup_local(fr, n.id)
                if (fr.fid, n.id) in st.alias and isinstance(getattr(n, '_parent', None), ast.Subscript) and n._parent.value is n:
                    return self.visit(clone(st.alias[(fr.fid, n.id)]))
                if v is not None:
                    return clone(v)
                return n

            def visit_Attribute(self, n):
                n2 = ast.Attribute(value=self.visit(n.value), attr=n.attr, ctx=ast.Load())
                if st.versioned and not raw:
                    key = _key(n2)
                    if key in st.versioned:
                        return ast.Name(id='%s_v%d' % (n.attr.lstrip('_'), st.versioned[key]), ctx=ast.Load())
                if heap:
                    key = _key(n2)
                    if key is not None and key in st.heap:
                        return clone(st.heap[key])
                return n2

            def visit_Subscript(self, n):
                n2 = ast.Subscript(value=self.visit(n.value), slice=self.visit(n.slice) if not isinstance(n.slice, ast.Constant) else n.slice,
                                   ctx=ast.Load())
                if isinstance(n2.value, (ast.Tuple, ast.List)) and isinstance(n2.slice, ast.Constant) and isinstance(n2.slice.value, int) \
                        and not isinstance(n2.slice.value, bool) and -len(n2.value.elts) <= n2.slice.value < len(n2.value.elts) \
                        and not any(isinstance(x, ast.Starred) for x in n2.value.elts):
                    return n2.value.elts[n2.slice.value]        # (a, b, c)[1] with a literal tuple (a row of a constant table) is b
                if heap and isinstance(n2.slice, ast.Constant):
                    base = _key(n2.value)
                    if base is not None:
                        key = '%s[%r]' % (base, n2.slice.value)
                        if key in st.heap:
                            return clone(st.heap[key])
                return n2

            def visit_Call(self, n):
                n = self.generic_visit(n)
                if inline and PURE_INLINER is not None and isinstance(n.func, ast.Attribute) and isinstance(n.func.value, ast.Name) \
                        and n.func.value.id == 'self' and not n.keywords:
                    r = PURE_INLINER(n, fr)
                    if r is not None:
                        return r
                return n

            def visit_Lambda(self, n):
                return n
        return T().visit(clone(node))

    def key(self, node, fr):
        """canonical heap key for an attribute target"""
        return _key(self.expr(node, fr, heap=False, raw=True))


def _root(fr):
    while isinstance(fr, _LambdaFrame):
        fr = fr.defining
    return fr


def _key(n):
    parts = []
    while isinstance(n, ast.Attribute):
        parts.append(n.attr)
        n = n.value
    if isinstance(n, ast.Name):
        parts.append(n.id)
        return '.'.join(reversed(parts))
    return None


_MUTATORS = {'append', 'extend', 'insert', 'pop', 'remove', 'clear', 'update', 'setdefault', 'popitem', 'sort', 'reverse'}


def replay(path, on_event=None, heap=True, versioned=()):
    """Walk the events of a path maintaining State; on_event(i, ev, state) is
    called *before* the event's own effect is applied."""
    st = State()
    st.heap_subst = heap
    st.versioned = {k: 0 for k in versioned}
    prev_assign = None
    for i, ev in enumerate(path.ev):
        if on_event is not None:
            on_event(i, ev, st)
        k = ev.kind
        if k == 'enter':
            call, nfr, caller = ev.node, ev.frame, ev.a
            # receiver
            f = call.func
            if isinstance(nfr, _LambdaFrame):
                lam = None
            if isinstance(f, ast.Attribute) and nfr.func is not None and nfr.func.cls is not None and not isinstance(nfr, _LambdaFrame):
                recv = f.value
                if isinstance(recv, ast.Call) and isinstance(recv.func, ast.Name) and recv.func.id == 'super':
                    st.selfmap[nfr.fid] = st.selfmap.get(_root(caller).fid)
                elif isinstance(recv, ast.Name) and recv.id[:1].isupper():
                    st.selfmap[nfr.fid] = st.selfmap.get(_root(caller).fid)
                else:
                    r = st.expr(recv, caller, heap=False)
                    st.selfmap[nfr.fid] = None if (isinstance(r, ast.Name) and r.id == 'self') else r
            elif not isinstance(nfr, _LambdaFrame):
                # callback / function reference: bound method of the frame that created the reference
                st.selfmap[nfr.fid] = st.selfmap.get(_root(caller).fid) if nfr.cls is caller.cls else None
            # parameters
            if nfr.func is not None and not isinstance(nfr, _LambdaFrame):
                params = nfr.func.params
                if nfr.func.cls is not None and not nfr.func.is_staticmethod:
                    params = params[1:]
                skip = 1 if (isinstance(f, ast.Attribute) and isinstance(f.value, ast.Name) and f.value.id[:1].isupper()
                             and call.args and isinstance(call.args[0], ast.Name) and call.args[0].id == 'self') else 0
                for name, a in zip(params, call.args[skip:]):
                    st.loc[(nfr.fid, name)] = st.expr(a, caller)
                for kw in call.keywords:
                    if kw.arg in params:
                        st.loc[(nfr.fid, kw.arg)] = st.expr(kw.value, caller)
                a = nfr.func.node.args
                pos = a.posonlyargs + a.args
                for arg, d in zip(pos[len(pos) - len(a.defaults):], a.defaults):
                    if (nfr.fid, arg.arg) not in st.loc:
                        st.loc[(nfr.fid, arg.arg)] = d
        elif k == 'assign':
            tgt = ev.a
            ret, rfr = ev.b
            if ret is None:
                val = ast.Constant(value=None)
            elif ret is _UNKNOWN:
                val = None
            else:
                val = st.expr(ret, rfr)
            # a = b = value: the value is evaluated once, before the first target is bound
            if prev_assign is not None and prev_assign[0] is ev.node and prev_assign[2] == i - 1:
                val = prev_assign[1]
            prev_assign = (ev.node, val, i)
            if isinstance(tgt, ast.Name):
                st.alias.pop((ev.frame.fid, tgt.id), None)
                if isinstance(ret, ast.Attribute) and rfr is ev.frame and _key(ret) is not None and _key(ret).startswith('self.') \
                        and _key(ret) not in st.versioned:
                    st.alias[(ev.frame.fid, tgt.id)] = ret
            _bind(st, tgt, val, ev.frame)
        elif k == 'aug':
            s = ev.node
            tgt = s.target
            cur = st.expr(tgt, ev.frame)
            val = ast.BinOp(left=cur, op=s.op, right=st.expr(s.value, ev.frame))
            _bind(st, tgt, val, ev.frame)
        elif k == 'call':
            f = ev.node.func
            if isinstance(f, ast.Attribute) and f.attr in _MUTATORS:
                key = st.key(f.value, ev.frame)
                if key is not None:
                    st.tainted.add(key)
        elif k == 'loop' and ev.a == 'enter' and isinstance(ev.node, (ast.For, ast.AsyncFor)):
            for n in ast.walk(ev.node.target):
                if isinstance(n, ast.Name):
                    st.loc.pop((ev.frame.fid, n.id), None)
    if on_event is not None:
        on_event(len(path.ev), None, st)
    return st


def _bind(st, tgt, val, fr):
    if isinstance(tgt, ast.Name):
        if val is None:
            st.loc.pop((fr.fid, tgt.id), None)
        else:
            st.loc[(fr.fid, tgt.id)] = val
    elif isinstance(tgt, ast.Attribute):
        key = st.key(tgt, fr)
        if key is not None and key in st.versioned:
            st.versioned[key] += 1
            if val is not None:
                d = ast.dump(val)
                newname = ast.Name(id='%s_v%d' % (tgt.attr.lstrip('_'), st.versioned[key]), ctx=ast.Load())
                for lk, lv in list(st.loc.items()):
                    if isinstance(lv, ast.AST) and ast.dump(lv) == d:
                        st.loc[lk] = newname
            return
        if key is not None:
            for k2 in [k2 for k2 in st.heap if k2.startswith(key + '[')]:
                del st.heap[k2]
            if val is None:
                st.heap.pop(key, None)
            else:
                st.heap[key] = val
                if key.startswith('self.') and not isinstance(val, (ast.Constant, ast.Name)):
                    d = ast.dump(val)
                    for lk, lv in list(st.loc.items()):
                        if lk[0] == fr.fid and isinstance(lv, ast.AST) and ast.dump(lv) == d:
                            st.loc[lk] = clone(tgt)
                if isinstance(val, ast.Dict):
                    for dk, dv in zip(val.keys, val.values):
                        if isinstance(dk, ast.Constant):
                            st.heap['%s[%r]' % (key, dk.value)] = dv
            st.tainted.discard(key)
    elif isinstance(tgt, (ast.Tuple, ast.List)):
        elts = val.elts if isinstance(val, (ast.Tuple, ast.List)) and len(val.elts) == len(tgt.elts) else None
        for i, t in enumerate(tgt.elts):
            if elts is not None:
                _bind(st, t, elts[i], fr)
            elif val is not None:
                _bind(st, t, ast.Subscript(value=val, slice=ast.Constant(value=i), ctx=ast.Load()), fr)
            else:
                _bind(st, t, None, fr)
    elif isinstance(tgt, ast.Subscript):
        base = tgt.value
        if isinstance(base, ast.Name) and (fr.fid, base.id) in st.alias:
            base = st.alias[(fr.fid, base.id)]
        key = st.key(base, fr) if isinstance(base, ast.Attribute) else None
        if key is not None:
            st.tainted.add(key)
            sl = tgt.slice
            if isinstance(sl, ast.Name) and isinstance(st.loc.get((fr.fid, sl.id)), ast.Constant):
                sl = st.loc[(fr.fid, sl.id)]        # d[k] = v with k a local that holds a constant on this path (unrolled table loop)
            if isinstance(sl, ast.Constant):
                ck = '%s[%r]' % (key, sl.value)
                if val is None:
                    st.heap.pop(ck, None)
                else:
                    st.heap[ck] = val
            else:
                for k2 in [k2 for k2 in st.heap if k2.startswith(key + '[')]:
                    del st.heap[k2]
