"""Frozen oracle tables, written from the specifications (not from the
implementation).  References:
  [APP]  MODBUS Application Protocol Specification V1.1b3
  [SER]  MODBUS over Serial Line Specification and Implementation Guide V1.02
  [TCP]  MODBUS Messaging on TCP/IP Implementation Guide V1.0b
"""

# [APP] §4.3 MODBUS data model + §6.x: which primary table each function code acts on.
# 'd' discrete inputs, 'c' coils, 'i' input registers, 'h' holding registers
FX_TABLE = {1: 'c', 5: 'c', 15: 'c',          # §6.1, §6.5, §6.11
            2: 'd',                           # §6.2
            4: 'i',                           # §6.4
            3: 'h', 6: 'h', 16: 'h', 22: 'h', 23: 'h'}   # §6.3, §6.6, §6.12, §6.16, §6.17

# [SER] §2.2: individual slave addresses 1..247, 0 = broadcast  → registrable ids 0..247
UNIT_ID_RANGE = (0, 247)

# [APP] §7 exception codes
EXC = {'IllegalFunction': 1, 'IllegalAddress': 2, 'IllegalValue': 3, 'SlaveFailure': 4,
       'Acknowledge': 5, 'SlaveBusy': 6, 'MemoryParityError': 8,
       'GatewayPathUnavailable': 0x0A, 'GatewayNoResponse': 0x0B}

# [APP] §6.x quantity limits:   fc -> list of (role, lo, hi)
LIMITS = {
    1: [('quantity', 1, 2000)],       # §6.1  1..2000 (0x7D0)
    2: [('quantity', 1, 2000)],       # §6.2
    3: [('quantity', 1, 125)],        # §6.3  1..125 (0x7D)
    4: [('quantity', 1, 125)],        # §6.4
    15: [('quantity', 1, 1968)],      # §6.11 1..0x7B0
    16: [('quantity', 1, 123)],       # §6.12 1..0x7B
    23: [('read_quantity', 1, 125), ('write_quantity', 1, 121)],   # §6.17 1..0x7D / 1..0x79
}
# byte-count relations ([APP] §6.11, §6.12, §6.17):  fc -> ('ceil8'|'x2')
BYTECOUNT = {15: 'ceil8', 16: 'x2', 23: 'x2'}
# [APP] §6.5: output value 0xFF00 = ON, 0x0000 = OFF, all other values illegal
COIL_ON, COIL_OFF = 0xFF00, 0x0000

# supported function codes of the property (C01 quantifier) and diagnostic sub-functions [APP] §6.8
FUNCTION_CODES = [1, 2, 3, 4, 5, 6, 7, 8, 11, 12, 15, 16, 17, 20, 21, 22, 23, 24, 43]
DIAG_SUBFUNCTIONS = [0, 1, 2, 3, 4, 10, 11, 12, 13, 14, 15, 16, 17, 18, 20, 21]
MEI_TYPE_READ_DEVICE_ID = 14           # [APP] §6.21
EXCEPTION_FLAG = 0x80                  # [APP] §4.1/§7: exception function code = fc + 0x80
MAX_PDU = 253                          # [APP] §4.1

# Integer PDU fields for which the specification excludes the value 0 ([APP] §6: quantities are >= 1, the MEI
# Read Device ID code is 1..4).  Every other 8/16-bit field (addresses, values, AND/OR masks, sub-function data,
# object ids, reference numbers, ...) may legitimately be 0.  Used by C01 R6 (constructors keep a 0 argument).
ZERO_EXCLUDED_FIELDS = {
    'read_code': 'MEI Read Device ID code is 0x01..0x04',
    'count': 'quantities are >= 1',
    'quantity': 'quantities are >= 1',
    'read_count': 'quantities are >= 1',
    'write_count': 'quantities are >= 1',
    'byte_count': 'derived from a quantity >= 1',
}

# Valid ranges of record fields ([APP] §6.14 / §6.15: file number 0x0001..0xFFFF, record number 0x0000..0x270F);
# a decoder may drop a sub-request only for values outside them.  Used by C01 R3 (guards on decoded records).
RECORD_FIELD_RANGES = {
    'file_number': (0x0001, 0xFFFF),
    'record_number': (0x0000, 0x270F),
}
