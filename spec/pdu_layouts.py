"""PDU data layouts (the bytes after the function code), written from
MODBUS Application Protocol Specification V1.1b3 ([APP] section numbers in comments).

Notation (a tiny layout language, parsed by sa/pdumatch.py):
  H:<expr>            16-bit big-endian field          B:<expr>   8-bit field
  BITS:<list>         LSB-first packed bit list, zero padded to a byte boundary ([APP] §6.1)
  RAW:<bytes>[#<len>] run of bytes (#len: its length in terms of sibling fields, for readers)
  REP(<list>){...}    the braces repeated for every element $e of <list>
  WORDS:<msg>         N 16-bit big-endian words carried by a diagnostic message ([APP] §6.8)
Expressions name the public attributes of the message object (self.x).  `inv`
lists relations the constructor must establish between attributes.
"""

COIL = 'ite(self.value, 65280, 0)'          # [APP] §6.5: 0xFF00 = ON, 0x0000 = OFF

REQUEST = {
    1: dict(layout='H:self.address H:self.count'),                                   # §6.1
    2: dict(layout='H:self.address H:self.count'),                                   # §6.2
    3: dict(layout='H:self.address H:self.count'),                                   # §6.3
    4: dict(layout='H:self.address H:self.count'),                                   # §6.4
    5: dict(layout='H:self.address H:' + COIL),                                      # §6.5
    6: dict(layout='H:self.address H:self.value'),                                   # §6.6
    7: dict(layout=''),                                                              # §6.7
    8: dict(layout='H:self.sub_function_code WORDS:self.message'),                   # §6.8
    11: dict(layout=''),                                                             # §6.9
    12: dict(layout=''),                                                             # §6.10
    15: dict(layout='H:self.address H:len(self.values) B:ceil8(len(self.values)) BITS:self.values'),   # §6.11
    16: dict(layout='H:self.address H:self.count B:self.byte_count REP(self.values){H:$e}',            # §6.12
             inv={'self.count': 'len(self.values)', 'self.byte_count': '2*self.count'}),
    17: dict(layout=''),                                                             # §6.13
    20: dict(layout='B:7*len(self.records) REP(self.records){B:6 H:$e.file_number H:$e.record_number H:$e.record_length}'),  # §6.14
    21: dict(layout='B:sum(7 + 2*_e.record_length for _e in self.records) '
                    'REP(self.records){B:6 H:$e.file_number H:$e.record_number H:$e.record_length RAW:$e.record_data#2*$e.record_length}'),  # §6.15
    22: dict(layout='H:self.address H:self.and_mask H:self.or_mask'),                # §6.16
    23: dict(layout='H:self.read_address H:self.read_count H:self.write_address H:self.write_count B:self.write_byte_count '
                    'REP(self.write_registers){H:$e}',                               # §6.17
             inv={'self.write_count': 'len(self.write_registers)', 'self.write_byte_count': '2*self.write_count'}),
    24: dict(layout='H:self.address'),                                               # §6.18
    43: dict(layout='B:self.sub_function_code B:self.read_code B:self.object_id'),   # §6.21 (MEI type 0x0E)
}

RESPONSE = {
    1: dict(layout='B:ceil8(len(self.bits)) BITS:self.bits'),                        # §6.1
    2: dict(layout='B:ceil8(len(self.bits)) BITS:self.bits'),                        # §6.2
    3: dict(layout='B:2*len(self.registers) REP(self.registers){H:$e}'),             # §6.3
    4: dict(layout='B:2*len(self.registers) REP(self.registers){H:$e}'),             # §6.4
    5: dict(layout='H:self.address H:' + COIL),                                      # §6.5
    6: dict(layout='H:self.address H:self.value'),                                   # §6.6
    7: dict(layout='B:self.status'),                                                 # §6.7
    8: dict(layout='H:self.sub_function_code WORDS:self.message'),                   # §6.8
    11: dict(layout='H:ite(self.status, 0, 65535) H:self.count'),                    # §6.9: status word 0xFFFF busy / 0x0000 ready
    12: dict(layout='B:6 + len(self.events) H:ite(self.status, 0, 65535) H:self.event_count H:self.message_count '
                    'REP(self.events){B:$e}'),                                       # §6.10
    15: dict(layout='H:self.address H:self.count'),                                  # §6.11
    16: dict(layout='H:self.address H:self.count'),                                  # §6.12
    17: dict(layout='B:1 + len(self.identifier) RAW:self.identifier#R0 - 1 B:ite(self.status, 255, 0)'),   # §6.13
    20: dict(layout='B:sum(1 + _e.response_length for _e in self.records) '
                    'REP(self.records){B:$e.response_length B:6 RAW:$e.record_data#$e.response_length - 1}',
             min_record=2),   # §6.14: file resp. length counts the reference-type byte, so a sub-response is >= 2 bytes
    21: dict(layout='B:sum(7 + 2*_e.record_length for _e in self.records) '
                    'REP(self.records){B:6 H:$e.file_number H:$e.record_number H:$e.record_length RAW:$e.record_data#2*$e.record_length}'),  # §6.15
    22: dict(layout='H:self.address H:self.and_mask H:self.or_mask'),                # §6.16
    23: dict(layout='B:2*len(self.registers) REP(self.registers){H:$e}'),            # §6.17
    24: dict(layout='H:2 + 2*len(self.values) H:len(self.values) REP(self.values){H:$e}'),   # §6.18: byte count, FIFO count (<= 31)
    43: dict(layout='B:self.sub_function_code B:self.read_code B:self.conformity B:self.more_follows B:self.next_object_id '
                    'B:self.number_of_objects OBJECTS:self.information'),            # §6.21
}

EXCEPTION = dict(layout='B:self.exception_code')                                     # §7

# field widths the reader side must use for the MEI object list ([APP] §6.21): id (1), length (1), value (length)
MEI_OBJECT = 'B:$id B:len($value) RAW:$value'
