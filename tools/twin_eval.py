#!/usr/bin/env python3
"""dev helper: tools/twin_eval.py <dir with refactor_*.diff>
Applies each behaviour-preserving patch to a scratch worktree of /repo and runs all 20 checks:
every check must stay silent (exit 0).  Prints the false alarms."""
import glob, os, shutil, subprocess, sys, tempfile
from concurrent.futures import ThreadPoolExecutor
d = sys.argv[1]
here = os.path.dirname(os.path.dirname(os.path.abspath(__file__)))
props = ['C%02d' % i for i in range(1, 21)]

def one(patch):
    tmp = tempfile.mkdtemp(prefix='verif-twin-', dir='/dev/shm' if os.path.isdir('/dev/shm') else None)
    out = []
    try:
        wt = os.path.join(tmp, 'wt')
        shutil.copytree('/repo/pymodbus', os.path.join(wt, 'pymodbus'))
        r = subprocess.run(['patch', '-p1', '-s', '-d', wt, '-i', os.path.abspath(patch)], capture_output=True, text=True)
        if r.returncode:
            return patch, ['PATCH DOES NOT APPLY: ' + (r.stdout + r.stderr)[:200]]
        env = dict(os.environ, VERIF_REPO=wt)
        for p in props:
            r = subprocess.run([os.path.join(here, 'check'), p], env=env, capture_output=True, text=True)
            if r.returncode != 0:
                msgs = [l.strip()[:260] for l in r.stdout.splitlines() if (': rule ' in l and 'KNOWN' not in l) or 'ANALYSIS-ERROR' in l]
                out.append('%s exit %d: %s' % (p, r.returncode, ' || '.join(msgs[:3])))
        return patch, out
    finally:
        shutil.rmtree(tmp, ignore_errors=True)

patches = sorted(glob.glob(os.path.join(d, 'refactor_*.diff')))
with ThreadPoolExecutor(max_workers=8) as ex:
    for patch, out in ex.map(one, patches):
        print('%s: %s' % (os.path.basename(patch), 'silent' if not out else 'FALSE ALARM(S)'))
        for o in out:
            print('     ', o)
