#!/usr/bin/env python3
"""dev helper: tools/seed_index.py — re-evaluate every stored seed against all 20 checks (scratch copies) and
rewrite seeded/INDEX.json (seed -> checks that report it).  Prints seeds caught by nothing and catchers lost
with respect to the previous index."""
import json, os, shutil, subprocess, sys, tempfile
from concurrent.futures import ThreadPoolExecutor
here = os.path.dirname(os.path.dirname(os.path.abspath(__file__)))
props = ['C%02d' % i for i in range(1, 21)]
seeds = sorted(d for d in os.listdir(os.path.join(here, 'seeded')) if os.path.isdir(os.path.join(here, 'seeded', d)))
only = sys.argv[1:]          # optional: names of seeds to (re-)evaluate; the other entries of INDEX.json are kept
if only:
    seeds = [s for s in seeds if s in only]
try:
    old = json.load(open(os.path.join(here, 'seeded', 'INDEX.json')))
except OSError:
    old = {}

def one(job):
    seed, pid = job
    tmp = tempfile.mkdtemp(prefix='verif-si-', dir='/dev/shm' if os.path.isdir('/dev/shm') else None)
    try:
        shutil.copytree('/repo/pymodbus', os.path.join(tmp, 'pymodbus'))
        r = subprocess.run(['patch', '-p1', '-s', '-f', '-d', tmp, '-i', os.path.join(here, 'seeded', seed, 'patch.diff')], capture_output=True, text=True)
        if r.returncode:
            return seed, pid, 'stale'
        env = dict(os.environ, VERIF_REPO=tmp, VERIF_SELFTEST_CHILD='1', VERIF_EVIDENCE_DIR=os.path.join(tmp, 'ev'))
        r = subprocess.run([os.path.join(here, 'check'), pid], env=env, capture_output=True, text=True)
        return seed, pid, r.returncode
    finally:
        shutil.rmtree(tmp, ignore_errors=True)

jobs = [(s, p) for s in seeds for p in props]
new = {s: [] for s in seeds}
with ThreadPoolExecutor(max_workers=16) as ex:
    for seed, pid, rc in ex.map(one, jobs):
        if rc == 1:
            new[seed].append(pid)
        elif rc not in (0,):
            print('note: %s / %s -> %s' % (seed, pid, rc))
bad = 0
for s in seeds:
    lost = sorted(set(old.get(s, [])) - set(new[s]))
    own = s[:3]
    print('%-58s %s%s%s' % (s, ','.join(new[s]) or 'NONE', '' if own in new[s] else '   (not under its own property)', '   LOST: %s' % lost if lost else ''))
    if not new[s] or lost:
        bad += 1
if only:
    merged = dict(old)
    merged.update(new)
    new = merged
json.dump(new, open(os.path.join(here, 'seeded', 'INDEX.json'), 'w'), indent=1, sort_keys=True)
sys.exit(1 if bad else 0)
