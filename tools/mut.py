#!/usr/bin/env python3
"""dev helper: tools/mut.py <Cxx> <relative file> <old> <new> [<file> <old> <new> ...]
copies /repo/pymodbus to a scratch dir, applies the textual replacements, runs the check there."""
import os, shutil, subprocess, sys, tempfile
pid = sys.argv[1]
triples = sys.argv[2:]
base = '/dev/shm' if os.path.isdir('/dev/shm') else None
d = tempfile.mkdtemp(prefix='verif-mut-', dir=base)
try:
    shutil.copytree('/repo/pymodbus', os.path.join(d, 'pymodbus'))
    for i in range(0, len(triples), 3):
        f, old, new = triples[i:i + 3]
        p = os.path.join(d, f)
        s = open(p).read()
        if old not in s:
            print('MUT: pattern not found in', f); sys.exit(3)
        open(p, 'w').write(s.replace(old, new, 1))
    env = dict(os.environ, VERIF_REPO=d)
    r = subprocess.run([os.path.join(os.path.dirname(os.path.abspath(__file__)), '..', 'check'), pid], env=env, capture_output=True, text=True)
    out = r.stdout + r.stderr
    keep = [l for l in out.splitlines() if l.startswith(('VIOLATION', 'KNOWN', 'ANALYSIS', '   pymodbus', '   FAIL', '   ok', 'Traceback')) or 'Error' in l]
    print('\n'.join(keep)); print('exit', r.returncode)
finally:
    shutil.rmtree(d, ignore_errors=True)
