#!/usr/bin/env python3
"""dev helper: tools/seed_eval.py <dir with patch.diff> [property ...]
Applies the patch to a scratch copy of /repo/pymodbus (never to /repo itself), runs the given
checks (default: all 20) against it and prints which ones report a violation."""
import os, shutil, subprocess, sys, tempfile, json
d = sys.argv[1]
props = sys.argv[2:] or ['C%02d' % i for i in range(1, 21)]
base = '/dev/shm' if os.path.isdir('/dev/shm') else None
tmp = tempfile.mkdtemp(prefix='verif-seed-', dir=base)
here = os.path.dirname(os.path.dirname(os.path.abspath(__file__)))
try:
    subprocess.run(['git', '-C', '/repo', 'worktree', 'add', '-q', '--detach', os.path.join(tmp, 'wt'), 'HEAD'], check=True)
    wt = os.path.join(tmp, 'wt')
    r = subprocess.run(['git', '-C', wt, 'apply', os.path.abspath(os.path.join(d, 'patch.diff'))], capture_output=True, text=True)
    if r.returncode:
        print('PATCH DOES NOT APPLY', r.stderr); sys.exit(3)
    env = dict(os.environ, VERIF_REPO=wt)
    hits = []
    for p in props:
        r = subprocess.run([os.path.join(here, 'check'), p], env=env, capture_output=True, text=True)
        v = [l for l in r.stdout.splitlines() if l.startswith('VIOLATION')]
        msgs = [l.strip() for l in r.stdout.splitlines() if ': rule ' in l]
        if r.returncode == 1:
            hits.append(p)
            print('%s: VIOLATION x%d' % (p, len(v)))
            for m in msgs[:3]:
                print('     ', m[:230])
        elif r.returncode != 0:
            print('%s: exit %d %s' % (p, r.returncode, [l for l in r.stdout.splitlines() if 'ANALYSIS' in l][:1]))
    print('caught by:', hits or 'NONE')
finally:
    subprocess.run(['git', '-C', '/repo', 'worktree', 'remove', '--force', os.path.join(tmp, 'wt')], capture_output=True)
    shutil.rmtree(tmp, ignore_errors=True)
