#!/usr/bin/env python3
"""Regenerates /verif/MANIFEST.json from the per-property table below."""
import json, os, sys
HERE = os.path.dirname(os.path.dirname(os.path.abspath(__file__)))
sys.path.insert(0, HERE)
from sa.claims import CLAIMS, NOT_APPLICABLE

checks = []
for pid in sorted(CLAIMS):
    c = CLAIMS[pid]
    checks.append({
        'property_id': pid,
        'quick_cmd': './check %s --tier quick' % pid,
        'thorough_cmd': './check %s --tier thorough' % pid,
        'evidence_file': '/verif/evidence/%s.json' % pid,
        'replay_cmd_template': './check %s --explain {path}' % pid,
        'engine': 'sa',
        'level_claimed': {'category': 'other', 'text': c['text'], 'design_ref': 'DESIGN.md §2 %s' % pid},
        'level_note': c['note'],
        'technique': c['technique'],
    })
man = {
    'version': 1,
    'setup_cmd': 'true',
    'hooks': {'guard': 'RIPTIDEIO_PYMODBUS_VERIF', 'enable': 'no hooks: the checks only parse /repo (ast); nothing is built or instrumented',
              'baseline_off_cmd': 'cd /repo && /venv/bin/python -m pytest -ra -q -p no:cacheprovider --timeout=900 --continue-on-collection-errors',
              'source_commits': [], 'add_only': True},
    'engines': [{'name': 'sa', 'path': '/verif/sa', 'serves_properties': sorted(CLAIMS),
                 'kind_free_text': 'repository-specific static analyser: ast loader + class table/MRO, constant folding, '
                                   'structured interprocedural path enumeration with per-path value propagation, '
                                   'affine/interval/constraint normal forms, wire-layout summaries, frozen spec tables'}],
    'checks': checks,
    'not_applicable': [{'property_id': k, 'reason': v} for k, v in sorted(NOT_APPLICABLE.items())],
    'notes': 'All checks are static (no code of pymodbus is imported or executed). Findings are keyed by '
             '(property, rule, construct, detail); known_findings.jsonl lists genuine defects of the pinned tree. '
             'Exit 2 + ANALYSIS-ERROR means the analysis lost an anchor (never a silent pass).',
}
with open(os.path.join(HERE, 'MANIFEST.json'), 'w') as fh:
    json.dump(man, fh, indent=1)
print('wrote MANIFEST.json with %d checks, %d not_applicable' % (len(checks), len(man['not_applicable'])))
