#!/usr/bin/env python3
"""dev helper: tools/seed_confirm.py <seed dir> <seed id>
Confirms a seeded change in a scratch worktree of /repo (demo passes unchanged, fails changed;
the existing suite still gives 354 passes) and, if confirmed, stores it as /verif/seeded/<seed id>/."""
import os, shutil, subprocess, sys, tempfile, json, re
src, sid = sys.argv[1], sys.argv[2]
here = os.path.dirname(os.path.dirname(os.path.abspath(__file__)))
tmp = tempfile.mkdtemp(prefix='seedconf-', dir='/tmp')
wt = os.path.join(tmp, 'wt')
res = {}
try:
    subprocess.run(['git', '-C', '/repo', 'worktree', 'add', '-q', '--detach', wt, 'HEAD'], check=True)
    env = dict(os.environ, PYTHONPATH=wt)
    demo = os.path.abspath(os.path.join(src, 'demo.py'))
    def run_demo():
        r = subprocess.run(['/venv/bin/python', demo], cwd=wt, env=env, capture_output=True, text=True, timeout=300)
        return r.returncode, (r.stdout + r.stderr).strip().splitlines()[-1:] 
    res['demo_unchanged'] = run_demo()
    r = subprocess.run(['git', '-C', wt, 'apply', os.path.abspath(os.path.join(src, 'patch.diff'))], capture_output=True, text=True)
    if r.returncode:
        print('PATCH DOES NOT APPLY', r.stderr); sys.exit(3)
    res['demo_changed'] = run_demo()
    r = subprocess.run(['/venv/bin/python', '-m', 'pytest', '-q', '-p', 'no:cacheprovider', '--timeout=900', '--continue-on-collection-errors',
                        '--junitxml', os.path.join(tmp, 'j.xml')], cwd=wt, env=env, capture_output=True, text=True, timeout=1200)
    tail = r.stdout.strip().splitlines()[-1]
    res['tests_changed'] = tail
    # compare the passing set with the baseline list
    import xml.etree.ElementTree as ET
    base = set(json.load(open('/root/.vp/BASELINE.json'))['stable_pass'])
    passed = set()
    for tc in ET.parse(os.path.join(tmp, 'j.xml')).getroot().iter('testcase'):
        if not any(ch.tag in ('failure', 'error', 'skipped') for ch in tc):
            passed.add('%s::%s' % (tc.get('classname'), tc.get('name')))
    res['baseline_missing'] = sorted(base - passed)[:5]
    ok = res['demo_unchanged'][0] == 0 and res['demo_changed'][0] != 0 and not (base - passed)
    res['confirmed'] = ok
    print(json.dumps(res, indent=1))
    if ok:
        dst = os.path.join(here, 'seeded', sid)
        os.makedirs(dst, exist_ok=True)
        shutil.copy(os.path.join(src, 'patch.diff'), dst)
        shutil.copy(demo, dst)
        meta = {}
        try:
            meta = json.load(open(os.path.join(src, 'meta.json')))
        except Exception:
            pass
        meta['confirmed_by'] = {'ran': 'tools/seed_confirm.py: scratch worktree of /repo HEAD; demo.py before/after `git apply patch.diff`; full pytest baseline command; passing set compared with BASELINE.json stable_pass',
                                'demo_unchanged_exit': res['demo_unchanged'][0], 'demo_changed_exit': res['demo_changed'][0],
                                'tests_changed': tail, 'stable_pass_missing': res['baseline_missing'],
                                'repo_head': subprocess.run(['git', '-C', '/repo', 'log', '--format=%h', '-1'], capture_output=True, text=True).stdout.strip()}
        json.dump(meta, open(os.path.join(dst, 'meta.json'), 'w'), indent=1)
        print('stored', dst)
finally:
    subprocess.run(['git', '-C', '/repo', 'worktree', 'remove', '--force', wt], capture_output=True)
    shutil.rmtree(tmp, ignore_errors=True)
